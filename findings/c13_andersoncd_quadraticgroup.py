"""Triage repro: AndersonCD accepts QuadraticGroup."""
import numpy as np, scipy.sparse as sp
from skglm.solvers import AndersonCD
from skglm.datafits import QuadraticGroup
from skglm.penalties import L1
from skglm.utils.jit_compilation import compiled_clone
from skglm.utils.data import grp_converter
rng = np.random.RandomState(0)
X = rng.randn(30, 6); y = rng.randn(30)
gi, gp = grp_converter(2, 6)
df, pen = compiled_clone(QuadraticGroup(gp, gi)), compiled_clone(L1(0.1))
for Xm in (X, sp.csc_matrix(X)):
    try:
        w, _, c = AndersonCD(fit_intercept=False).solve(Xm, y, df, pen)
        print(type(Xm).__name__, "solved, stop_crit", c, "(per-group Lipschitz indexed by feature)")
    except Exception as e:
        print(type(Xm).__name__, "->", type(e).__name__, str(e).splitlines()[0][:100])
