import numpy as np, scipy.sparse as sp, warnings
warnings.simplefilter("ignore")
from skglm.solvers import AndersonCD
from skglm.datafits import Quadratic
from skglm.penalties import L1
from skglm.utils.jit_compilation import compiled_clone
rng=np.random.default_rng(0)
n,p=30,30
X=rng.standard_normal((n,p))*(rng.random((n,p))<0.4); y=rng.standard_normal(n)
res={}
for name,M in (("dense",X),("csc",sp.csc_matrix(X)),("csr",sp.csr_matrix(X))):
    df=compiled_clone(Quadratic()); pen=compiled_clone(L1(0.05))
    try:
        w=AndersonCD(tol=1e-10,fit_intercept=False).solve(M,y,df,pen)[0]
        res[name]=w; print(name, np.round(w[:5],4))
    except Exception as e:
        print(name,"raised",type(e).__name__,str(e)[:100])
print("csr==dense", np.allclose(res.get("csr",0),res["dense"],atol=1e-6))
