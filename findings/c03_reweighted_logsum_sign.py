import numpy as np
from skglm.experimental.reweighted import IterativeReweightedL1
from skglm.solvers import AndersonCD
from skglm.datafits import Quadratic
from skglm.penalties import LogSumPenalty, L0_5
rng=np.random.default_rng(0)
X=rng.standard_normal((60,20)); w=np.zeros(20); w[:4]=[2,-3,1.5,-2]; y=X@w+0.1*rng.standard_normal(60)
for pen in (L0_5(0.1), LogSumPenalty(0.1, 0.5)):
    est=IterativeReweightedL1(penalty=pen, n_reweights=6, solver=AndersonCD(tol=1e-10, fit_intercept=False), datafit=Quadratic())
    est.fit(X,y)
    print(type(pen).__name__, "loss history", np.round(est.loss_history_,5), "coef[:5]", np.round(est.coef_[:5],3))
