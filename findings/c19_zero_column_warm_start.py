"""Triage repro: kernels that `continue` on a zero Lipschitz constant keep a warm-started
coefficient on an all-zero column (ProxNewton, MultiTaskBCD, GroupProxNewton)."""
import warnings
import numpy as np
from skglm.solvers import ProxNewton, MultiTaskBCD, GroupProxNewton
from skglm.datafits import Quadratic, QuadraticMultiTask, LogisticGroup
from skglm.penalties import L1, L2_1, WeightedGroupL2
from skglm.utils.jit_compilation import compiled_clone
from skglm.utils.data import grp_converter
warnings.simplefilter("ignore")
rng = np.random.RandomState(0)
X = np.asfortranarray(rng.randn(40, 6)); X[:, 2] = 0.; y = rng.randn(40)
w0 = np.ones(6)
df = compiled_clone(Quadratic()); df.initialize(X, y)
w, _, c = ProxNewton(fit_intercept=False, tol=1e-8).solve(X, y, df, compiled_clone(L1(0.1)), w0.copy(), X @ w0)
print("ProxNewton   w[2] =", w[2], "stop_crit =", c)
Y = np.asfortranarray(rng.randn(40, 2)); W0 = np.ones((6, 2))
W, _, c = MultiTaskBCD(fit_intercept=False, tol=1e-8).solve(X, Y, compiled_clone(QuadraticMultiTask()),
                                                            compiled_clone(L2_1(0.1)), W0.copy(), X @ W0)
print("MultiTaskBCD W[2] =", W[2], "stop_crit =", c)
