"""Triage repro: IterativeReweightedL1 default solver and refit."""
import numpy as np
from skglm.experimental import IterativeReweightedL1
from skglm.solvers import AndersonCD
rng = np.random.RandomState(0)
X, y = rng.randn(30, 8), rng.randn(30)
try:
    IterativeReweightedL1().fit(X, y)
    print("default solver: ok")
except Exception as e:
    print("default solver=None ->", type(e).__name__, e)
est = IterativeReweightedL1(solver=AndersonCD(fit_intercept=False))
est.fit(X, y)
try:
    est.fit(X, y)
    print("second fit: ok")
except Exception as e:
    print("second fit ->", type(e).__name__, str(e)[:120])
