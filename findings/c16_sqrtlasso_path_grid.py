import numpy as np, warnings
warnings.filterwarnings("ignore")
from skglm.experimental.sqrt_lasso import SqrtLasso
from skglm.utils.data import make_correlated_data
X, y, _ = make_correlated_data(50, 10, random_state=0)
alphas, coefs = SqrtLasso(tol=1e-9).path(X, y, n_alphas=5)
crit = np.linalg.norm(X.T @ y, ord=np.inf) / np.linalg.norm(y)
print("first alpha of default grid", alphas[0], "critical value", crit)
print("nnz at first alpha:", np.count_nonzero(coefs[0]))
assert np.count_nonzero(coefs[0]) == 0, "default grid does not start at the null solution"
