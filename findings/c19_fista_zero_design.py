"""Triage repro (not a registered check): FISTA / PDCD_WS on degenerate designs."""
import warnings
import numpy as np
from skglm.solvers import FISTA
from skglm.experimental import PDCD_WS, Pinball
from skglm.datafits import Quadratic
from skglm.penalties import L1
from skglm.utils.jit_compilation import compiled_clone

warnings.simplefilter("ignore")
rng = np.random.RandomState(0)
y = rng.randn(20)
X0 = np.zeros((20, 5))
df, pen = compiled_clone(Quadratic()), compiled_clone(L1(0.1))
try:
    w, _, crit = FISTA(max_iter=5).solve(X0, y, df, pen)
    print("FISTA all-zero X ->", w, crit)
except Exception as e:
    print("FISTA all-zero X raised", type(e).__name__, e)
X1 = rng.randn(20, 5); X1[:, 2] = 0.
w, _, crit = PDCD_WS(max_iter=5).solve(X1, y, compiled_clone(Pinball(0.5)), pen)
print("PDCD_WS zero column ->", w, crit)
