"""Triage repro: AndersonCD x Logistic certifies an intercept whose gradient is 4 x tol."""
import numpy as np
from skglm.solvers import AndersonCD
from skglm.datafits import Logistic
from skglm.penalties import L1
from skglm.utils.jit_compilation import compiled_clone
rng = np.random.RandomState(0)
X = rng.randn(200, 20); y = np.sign(X[:, 0] + 1.5 + 0.5 * rng.randn(200))
df, pen = compiled_clone(Logistic()), compiled_clone(L1(0.05))
worst = 0
for tol in (2e-2, 1.5e-2):
    w, _, crit = AndersonCD(tol=tol, fit_intercept=True).solve(X, y, df, pen)
    Xw = X[:, :] @ w[:-1] + w[-1]
    gi = abs(np.sum(-y / (1 + np.exp(y * Xw))) / len(y))
    print(f"tol={tol:g} reported={crit:.2e} |intercept gradient|={gi:.2e}")
