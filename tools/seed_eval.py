#!/venv/bin/python
"""Evaluate the seeded defects in /verif/seeded/<id>/ against the checks.

For each seed: scratch worktree of /repo HEAD under /tmp/sw (removed afterwards), apply
patch.diff, run demo.py on the clean tree and on the patched tree, run every claimed
check with --repo <worktree>, record which properties raise VIOLATION (exit 1) or
ANALYSIS-ERROR (exit 2).  With --suite also run the pinned test-suite on the patched tree.
Nothing is ever applied to /repo itself.
"""
import concurrent.futures as cf
import json
import os
import subprocess
import sys
import shutil
import xml.etree.ElementTree as ET

ROOT = os.path.dirname(os.path.dirname(os.path.abspath(__file__)))
SEEDED = os.path.join(ROOT, "seeded")
PY = "/venv/bin/python"
SW = "/tmp/sw"


def sh(cmd, cwd=None, timeout=3600, env=None):
    p = subprocess.run(cmd, shell=True, cwd=cwd, capture_output=True, text=True, timeout=timeout, env=env)
    return p.returncode, p.stdout + p.stderr


def props():
    man = json.load(open(os.path.join(ROOT, "MANIFEST.json")))
    return [c["property_id"] for c in man["checks"]]


def evaluate(seed, suite=False):
    d = os.path.join(SEEDED, seed)
    wt = os.path.join(SW, seed)
    res = dict(seed=seed)
    sh(f"git -C /repo worktree remove --force {wt}")
    shutil.rmtree(wt, ignore_errors=True)
    rc, out = sh(f"git -C /repo worktree add --detach {wt} HEAD")
    if rc:
        res["error"] = out[-300:]
        return res
    try:
        shutil.copy(os.path.join(d, "demo.py"), os.path.join(wt, "demo.py"))
        rc, out = sh(f"{PY} demo.py", cwd=wt, timeout=900)
        res["demo_clean_rc"] = rc
        rc, out = sh(f"git apply {d}/patch.diff", cwd=wt)
        if rc:
            rc, out = sh(f"git apply --3way {d}/patch.diff", cwd=wt)
            res["applied"] = "3way" if rc == 0 else "conflict"
            if rc:
                res["apply_error"] = out[-300:]
                return res
        else:
            res["applied"] = "clean"
        rc, out = sh(f"{PY} demo.py", cwd=wt, timeout=900)
        res["demo_patched_rc"] = rc
        res["demo_tail"] = out[-400:]
        env = dict(os.environ, SKGLM_SA_EVID=f"/tmp/sw/evid_{seed}")
        det, err = [], []
        lines = {}
        for p in props():
            rc, out = sh(f"{PY} sa/cli.py check {p} --repo {wt}", cwd=ROOT, env=env, timeout=600)
            if rc == 1:
                det.append(p)
                lines[p] = [l for l in out.splitlines() if l.strip().startswith("violation")][:3]
            elif rc == 2:
                err.append(p)
                lines[p] = [l for l in out.splitlines() if "ANALYSIS-ERROR" in l][:3]
        res["violations"] = det
        res["analysis_errors"] = err
        res["lines"] = lines
        shutil.rmtree(f"/tmp/sw/evid_{seed}", ignore_errors=True)
        if suite:
            rc, out = sh(f"{PY} -m pytest -q -p no:cacheprovider --timeout=900 --continue-on-collection-errors "
                         f"-n 4 --junitxml=/tmp/sw/{seed}.xml", cwd=wt, timeout=3000)
            base = set(open(os.path.join(ROOT, "tools", "baseline_pass.txt")).read().split("\n")) - {""}
            passed = set()
            try:
                for tc in ET.parse(f"/tmp/sw/{seed}.xml").iter("testcase"):
                    if not any(c.tag in ("failure", "error", "skipped") for c in tc):
                        passed.add(tc.get("classname") + "::" + tc.get("name"))
                res["suite_missing"] = sorted(base - passed)
                res["suite_passed"] = len(passed)
            except Exception as e:
                res["suite_error"] = str(e)
            try:
                os.remove(f"/tmp/sw/{seed}.xml")
            except OSError:
                pass
    finally:
        sh(f"git -C /repo worktree remove --force {wt}")
        shutil.rmtree(wt, ignore_errors=True)
    rp = os.path.join(d, "result.json")
    if not suite and os.path.exists(rp):
        # a run without --suite keeps the suite verdict of the last run with it
        old = json.load(open(rp))
        for k in ("suite_missing", "suite_passed", "suite_error"):
            if k in old:
                res[k] = old[k]
    json.dump(res, open(rp, "w"), indent=1)
    return res


def main():
    suite = "--suite" in sys.argv
    only = [a for a in sys.argv[1:] if not a.startswith("--")]
    seeds = sorted(x for x in os.listdir(SEEDED) if os.path.isdir(os.path.join(SEEDED, x)))
    if only:
        seeds = [s for s in seeds if any(s == o or (o.endswith("*") and s.startswith(o[:-1])) for o in only)]
    os.makedirs(SW, exist_ok=True)
    workers = int(os.environ.get("SEED_WORKERS", 5 if suite else 12))
    with cf.ThreadPoolExecutor(workers) as ex:
        for r in ex.map(lambda s: evaluate(s, suite), seeds):
            prop = r["seed"].split("_")[0]
            own = prop in r.get("violations", [])
            print(r["seed"], r.get("applied"), "demo", r.get("demo_clean_rc"), r.get("demo_patched_rc"),
                  "| detected by", r.get("violations"), "| errors", r.get("analysis_errors"),
                  "| OWN" if own else "| missed-own", "| suite missing", r.get("suite_missing", "-"), flush=True)


if __name__ == "__main__":
    main()
