#!/venv/bin/python
"""Regenerate the generated sections of DESIGN.md (findings ledger, seeded-change table)
from known_findings.json and seeded/*/{meta,result}.json, and write `detected_by` into
each seed's meta.json (the thorough-tier self-test reads it).

  seed_table.py            rewrite DESIGN.md sections and meta.json files
"""
import glob
import json
import os
import re
import subprocess

ROOT = os.path.dirname(os.path.dirname(os.path.abspath(__file__)))


def ledger():
    d = json.load(open(os.path.join(ROOT, "known_findings.json")))
    fixed = [e for e in d["findings"] if e["status"] == "fixed"]
    known = [e for e in d["findings"] if e["status"] == "known"]
    out = ["### 8.1 Repaired (`fix:` commits in /repo)", "",
           "| property | commit | rule / construct | what failed on the pinned tree |", "|---|---|---|---|"]
    for e in sorted(fixed, key=lambda e: (e["property"], e["commit"], e["key"])):
        rule, _, where = e["key"].partition("|")
        where = where.replace("skglm/", "")
        out.append(f"| {e['property']} | `{e['commit']}` | {rule} `{where[:70]}` | {e['what'].replace('|', '/')} |")
    out += ["", "### 8.2 Known findings (recorded, not repaired)", "",
            "Each is reported as `KNOWN-FINDING:` and matched by rule and construct; any other "
            "violation of the same rule still fails the check.", "",
            "| property | rule / construct | what fails | repro |", "|---|---|---|---|"]
    for e in sorted(known, key=lambda e: (e["property"], e["key"])):
        rule, _, where = e["key"].partition("|")
        where = where.replace("skglm/", "")
        out.append(f"| {e['property']} | {rule} `{where[:80]}` | {e['what'].replace('|', '/')} | "
                   f"{('`' + e['repro'] + '`') if e.get('repro') else ''} |")
    return "\n".join(out)


def seeds():
    rows = []
    for d in sorted(glob.glob(os.path.join(ROOT, "seeded", "C*_*"))):
        sid = os.path.basename(d)
        meta = json.load(open(os.path.join(d, "meta.json")))
        rp = os.path.join(d, "result.json")
        res = json.load(open(rp)) if os.path.exists(rp) else {}
        rows.append((sid, d, meta, res))
    return rows


def rule_names(res):
    names = {}
    for pid, lines in (res.get("lines") or {}).items():
        rs = []
        for ln in lines:
            m = re.search(r"violation (R-[A-Z0-9-]+)", ln)
            if m and m.group(1) not in rs:
                rs.append(m.group(1))
        names[pid] = rs
    return names


WHY_MISSED = {
    "C07_1": "prox_log_sum closed form: global optimality among stationary points is not claimed (§4 C07)",
    "C12_2": "neutralised by fix 712696b (the patched tree no longer misbehaves; kept for the record)",
    "C10_3": "neutralised by fix 9fc02f6: solve() converts CSR, and nothing else on that branch reads the triple (demo passes with the change; the check is silent, as it must be)",
    "C10_8": "neutralised by fix 9fc02f6 (same as C10_3)",
    "C10_11": "neutralised by fix 9fc02f6: path()'s initialisation on the unconverted matrix is redone by _solve after solve() converted it",
    "C07_11": "prox_05 threshold constant: optimality among stationary candidates of a closed form is not claimed (§4 C07)",
    "C09_11": "Logistic.raw_hessian rewritten in an algebraically equal form that cancels in floating point (§4 C09)",
    "C06_12": "Cox forward recursion by subtraction: algebraically equal, catastrophic cancellation (§4 C06)",
    "C19_10": "value of the MCP prox at the fallback step (sign is decided by R-FALLBACK, the value is numeric)",
    "C11_11": "Cox times replaced by ordinal ranks: a value transformation of y that only matters with ties (§4 C11)",
    "C07_19": "prox_log_sum regime selector `alpha <= eps`: which stationary candidate is the global minimiser is not claimed (§4 C07)",
    "C09_21": "default iteration budget of the power method: its accuracy after a generic start is not decided (§4 C09)",
    "C11_20": "Cox tie test counting unique times over all samples: a value-dependent decision on runtime data",
    "C12_19": "label mapping relative to n_classes_ - 1: differs from the arithmetic mapping only for single-class training data",
    "C16_19": "hard-thresholding branch of prox_MCP for gamma below the step: agreement of alpha_max with the prox is decided on the usual step range only",
    "C19_20": "domain check of the Gamma datafit relaxed to y < 0: validity ranges of targets are not modelled",
    "C19_21": "order of the two threshold tests of prox_MCP: differs only at the fallback step (value of a prox far outside its step range, as C19_10)",
    "C10_14": "numpy's buffered `a[idx] += v` with repeated indices: a CSC matrix with duplicate entries is outside the input contract the CSC helpers already assume",
    "C06_16": "Logistic.raw_grad rewritten in an algebraically equal form that overflows (inf / inf) for margins below -709: numeric",
    "C11_17": "Cox tie test on mis-aligned masks: a value-dependent decision on runtime data",
    "C16_18": "(n, 1)-shaped y broadcasting in a vectorised alpha_max: the lifter models y as a vector, for which the rewrite is decided equal",
    "C17_16": "integer overflow of `y @ y` for narrow integer targets: element types of user data are not modelled",
    "C03_22": "line-search budget constant halved: how many halvings an overshoot needs is numeric (backtracking exhaustion is reported as a note, §4 C03)",
    "C07_22": "prox_SCAD rewritten as a closed form that is the global minimiser for step < gamma - 1 only: every value it returns is still a stationary point; global optimality among stationary points is not claimed (§4 C07)",
    "C07_23": "prox_log_sum regime selector `alpha <= eps` (as C07_19): which stationary candidate is the global minimiser is not claimed (§4 C07)",
    "C09_22": "default iteration budget of the power method lowered to the documented 20 (as C09_21): accuracy after a generic start is not decided (§4 C09)",
    "C20_18": "score array sized by the Lipschitz argument: only manifests through the recorded GroupBCD x LogisticGroup finding (per-feature constants, §8.2)",
}


def seed_table(rows):
    out = ["| seed | property | change | needs | caught by (rules) | own property |", "|---|---|---|---|---|---|"]
    own = other = missed = 0
    for sid, d, meta, res in rows:
        det = sorted(res.get("violations") or [])
        rn = rule_names(res)
        caught = "; ".join(f"{p}: {', '.join(rn.get(p) or ['?'])}" for p in det)
        prop = meta["property"]
        if prop in det:
            own += 1
            flag = "yes"
        elif det:
            other += 1
            flag = "via " + ",".join(det)
        else:
            missed += 1
            flag = "**missed** — " + WHY_MISSED.get(sid, "see §4")
        summ = re.sub(r"\s+", " ", meta.get("summary", ""))[:150].replace("|", "/")
        need = re.sub(r"\s+", " ", str(meta.get("needs_to_manifest", "")))[:90].replace("|", "/")
        out.append(f"| {sid} | {prop} | {summ} | {need} | {caught or '—'} | {flag} |")
    out.append("")
    out.append(f"Totals: {len(rows)} seeded changes; {own} caught by their own property's check, "
               f"{other} only by another property's check, {missed} not caught.")
    return "\n".join(out)


def splice(text, tag, body):
    b, e = f"<!-- {tag}:BEGIN -->", f"<!-- {tag}:END -->"
    if b not in text:
        text = text.replace(f"<!-- {tag} -->", b + "\n" + e)
    i, j = text.index(b) + len(b), text.index(e)
    return text[:i] + "\n" + body + "\n" + text[j:]


def main():
    rows = seeds()
    for sid, d, meta, res in rows:
        if not res:
            continue
        meta["detected_by"] = sorted(res.get("violations") or [])
        meta["evaluated"] = dict(
            how="tools/seed_eval.py --suite: scratch worktree of /repo HEAD, demo on the clean "
                "tree, patch applied, demo again, all 19 checks with --repo, pinned suite with the "
                "patch; worktree removed afterwards",
            demo_clean_rc=res.get("demo_clean_rc"), demo_patched_rc=res.get("demo_patched_rc"),
            suite_passed=res.get("suite_passed"), suite_missing=res.get("suite_missing"),
            applied=res.get("applied"))
        json.dump(meta, open(os.path.join(d, "meta.json"), "w"), indent=1)
    p = os.path.join(ROOT, "DESIGN.md")
    text = open(p).read()
    text = splice(text, "LEDGER", ledger())
    text = splice(text, "SEEDTABLE", seed_table(rows))
    open(p, "w").write(text)
    print("DESIGN.md sections regenerated;", len(rows), "seeds")


if __name__ == "__main__":
    main()
