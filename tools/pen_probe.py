import sys, os
sys.path.insert(0, os.path.dirname(os.path.dirname(os.path.abspath(__file__))))
from sa.cli import Analysis
from sa.algebra import *
from sa.lift import *
from sa.rules.formulas import make_self
A=Analysis()
prog=A.prog
import itertools
for cls in prog.penalties:
    if len(sys.argv) > 1 and cls.name not in sys.argv[1:]: continue
    spec=dict(prog.spec_of(cls) or [])
    bools=[k for k,t in spec.items() if 'bool' in t]
    for var in ([dict(zip(bools,v)) for v in itertools.product([False,True],repeat=len(bools))] or [{}]):
        L=Lifter(prog, cls.module)
        so=make_self(prog, cls, L, {k:PyConst(v) for k,v in var.items()})
        block = cls.find_method('prox_1feat') is not None
        if block:
            w=Arr(('P','T'), lambda j,t: el('w',j,t))
            grad=Arr(('P','T'), lambda j,t: el('g',j,t))
        else:
            w=Arr(('P',), lambda j: el('w',j))
            grad=Arr(('P',), lambda j: el('g',j))
        ws=Arr(('P',), lambda k: IdxV(k, extent='P'))
        for m,args in (('value',[w]),('subdiff_distance',[w,grad,ws]),('prox_1d',[sym('x'),sym('s'),IdxV('j0',extent='P')]),('prox_1feat',[Arr(('T',),lambda t: el('x',t)),sym('s'),IdxV('j0',extent='P')]),('alpha_max',[grad])):
            f=cls.find_method(m)
            if f is None or f.cls.name=='BasePenalty': continue
            try:
                v=L.call_function(f,args,self_obj=so)
                if isinstance(v,Fill): v=finalize(v)
                if isinstance(v,Arr): v=v.at(*(['j0','t0'][:v.ndim]))
                print(cls.name,var,m,'=>',show_rf(as_rf(v))[:300])
            except Unsupported as e:
                print(cls.name,var,m,'UNSUPPORTED',e)
            except Exception as e:
                import traceback; print(cls.name,var,m,'ERROR',type(e).__name__,e); traceback.print_exc(limit=-3)
