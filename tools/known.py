#!/venv/bin/python
"""Maintain /verif/known_findings.json (edited by hand through this script, never by a
check at run time).

  known.py fixed  <property> <commit> <rule|construct key> <what failed>
  known.py known  <property> <rule|construct key> <what fails> [repro]
  known.py list
"""
import json
import os
import sys

PATH = os.path.join(os.path.dirname(os.path.dirname(os.path.abspath(__file__))),
                    "known_findings.json")


def load():
    if os.path.exists(PATH):
        return json.load(open(PATH))
    return {"format": "status=known entries are printed as KNOWN-FINDING and do not fail "
                      "the check; status=fixed entries suppress nothing (history only)",
            "findings": []}


def save(d):
    d["findings"].sort(key=lambda e: (e["property"], e["status"], e["key"]))
    json.dump(d, open(PATH, "w"), indent=1)


def main():
    d = load()
    cmd = sys.argv[1]
    if cmd == "list":
        for e in d["findings"]:
            print(e["status"], e["property"], e["key"], "::", e["what"][:80])
        return
    if cmd == "fixed":
        _, _, prop, commit, key, what = sys.argv[:6]
        d["findings"] = [e for e in d["findings"] if not (e["property"] == prop and e["key"] == key)]
        d["findings"].append(dict(property=prop, status="fixed", commit=commit, key=key, what=what,
                                  line=f"fixed: property={prop} {commit} {what}"))
    elif cmd == "known":
        prop, key, what = sys.argv[2:5]
        repro = sys.argv[5] if len(sys.argv) > 5 else None
        d["findings"] = [e for e in d["findings"] if not (e["property"] == prop and e["key"] == key)]
        e = dict(property=prop, status="known", key=key, what=what)
        if repro:
            e["repro"] = repro
        d["findings"].append(e)
    save(d)


if __name__ == "__main__":
    main()
