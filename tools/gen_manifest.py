#!/venv/bin/python
"""Regenerate /verif/MANIFEST.json from the table of claimed properties
(sa/rules/claims.py).  Run after changing what is claimed."""
import json
import os
import sys

ROOT = os.path.dirname(os.path.dirname(os.path.abspath(__file__)))
sys.path.insert(0, ROOT)
from sa.rules import claims, props  # noqa: E402

PY = "/venv/bin/python"
checks = []
for pid in sorted(claims.CLAIMS):
    c = claims.CLAIMS[pid]
    if pid not in props.PROPS:
        raise SystemExit(f"{pid} claimed but not wired in props.PROPS")
    checks.append(dict(
        property_id=pid,
        quick_cmd=f"{PY} sa/cli.py check {pid} --tier quick",
        thorough_cmd=f"{PY} sa/cli.py check {pid} --tier thorough",
        evidence_file=f"/verif/evidence/{pid}.json",
        replay_cmd_template=PY + " sa/cli.py replay {path}",
        engine="sa",
        level_claimed=dict(category="other", text=c["text"], design_ref=c["design_ref"]),
        level_note=c["note"],
        technique=c["technique"],
    ))
na = [dict(property_id=p, reason=r) for p, r in sorted(claims.NOT_APPLICABLE.items())]
all_ids = [json.loads(l)["id"] for l in open(os.path.join(ROOT, "properties.jsonl"))]
missing = [p for p in all_ids if p not in claims.CLAIMS and p not in claims.NOT_APPLICABLE]
if missing:
    raise SystemExit(f"properties neither claimed nor not_applicable: {missing}")
man = dict(
    version=1,
    setup_cmd=f"{PY} -m compileall -q sa tools",
    hooks=dict(guard="SKGLM_VERIF", enable="no hooks: the analysis reads the source of "
               "/repo's working tree; nothing in /repo is instrumented",
               baseline_off_cmd="cd /repo && /venv/bin/python -m pytest -ra -q -p "
               "no:cacheprovider --timeout=900 --continue-on-collection-errors",
               source_commits=[], add_only=True),
    engines=[dict(name="sa", path="/verif/sa", serves_properties=sorted(claims.CLAIMS),
                  kind_free_text="repo-specific static analysis over Python ast: program "
                  "model + registries, statement CFG with dominators / reaching definitions "
                  "/ knob-consistent path search, call graph with slot dispatch, provenance "
                  "roles, effect summaries, extent (shape/index-kind) inference, algebraic "
                  "normal forms for sibling formulas")],
    checks=checks,
    not_applicable=na,
    notes="Static analysis only: no check imports, compiles or executes skglm. Exit 0 = "
          "held (KNOWN-FINDING lines for triaged genuine defects listed in "
          "known_findings.json), 1 = VIOLATION, 2 = ANALYSIS-ERROR (never a violation).",
)
with open(os.path.join(ROOT, "MANIFEST.json"), "w") as f:
    json.dump(man, f, indent=1)
print(f"wrote MANIFEST.json: {len(checks)} checks, {len(na)} not applicable")
